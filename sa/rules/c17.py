"""C17 - valid parameters always yield a schedule; invalid ones fail before any action.

  REJECT  for each class and each invalid region of its constructor parameters the
          abstract evaluation of the constructor chain (super().__init__ inlined) ends in
          raise/assert on every path; for Multistage without any unit and max_n > 1 no
          `yield` is reachable in _iterator (the guard prefix of n_advance is inlined)
  ACCEPT  no valid region reaches a raise of the constructor chain
  BORDER  stores with a constant index into a table whose size comes from a parameter
          are dominated by a guard making the index valid in every reachable cell
"""
import ast

from .common import *
from ..interp import Interp
from ..karr import State

UNIT_PARAMS = ("snapshots", "snapshots_in_ram", "snapshots_on_disk", "binomial_snapshots")
STORAGE_PARAMS = ("storage", "binomial_storage")
FAMILY = ("HRevolve", "DiskRevolve", "PeriodicDiskRevolve", "Revolve")


def ge(st, name, k):
    st.add_ineq(Lin.sym(name) - Lin.const(k))
    st.enum_meet(name, "notin", ["None"])


def le(st, name, k):
    st.add_ineq(Lin.const(k) - Lin.sym(name))
    st.enum_meet(name, "notin", ["None"])


def regions(cname, params):
    """-> (invalid, valid): lists of (name, State) over constructor parameter names"""
    inv, val = [], []

    def base():
        st = State()
        if "max_n" in params:
            ge(st, "max_n", 1)
        if "period" in params:
            ge(st, "period", 1)
        for p in STORAGE_PARAMS:
            if p in params:
                pass
        return st
    sparams = [p for p in STORAGE_PARAMS if p in params]
    svals = [("StorageType.RAM", "StorageType.DISK")] if sparams else [()]

    def with_storage(st, ok=True):
        outs = []
        if not sparams:
            return [("", st)]
        for v in (("StorageType.RAM", "StorageType.DISK") if ok else ("StorageType.WORK", "StorageType.NONE")):
            s2 = st.copy()
            s2.enum_set(sparams[0], v)
            outs.append((f", {sparams[0]}={v.split('.')[1]}", s2))
        return outs
    units = [p for p in UNIT_PARAMS if p in params]
    # ---- invalid regions
    if "max_n" in params:
        st = State()
        le(st, "max_n", 0)
        for tag, s2 in with_storage(st):
            inv.append(("max_n<=0" + tag, s2))
    if "period" in params:
        st = State()
        le(st, "period", 0)
        for tag, s2 in with_storage(st):
            inv.append(("period<=0" + tag, s2))
    if sparams:
        st = base()
        for u in units:
            ge(st, u, 1)
        for tag, s2 in with_storage(st, ok=False):
            inv.append(("storage not RAM/DISK" + tag, s2))
    if cname == "MixedCheckpointSchedule":
        st = base()
        ge(st, "max_n", 2)
        le(st, "snapshots", 0)
        for tag, s2 in with_storage(st):
            inv.append(("max_n>=2, snapshots<=0" + tag, s2))
    if cname in FAMILY:
        st = base()
        ge(st, "max_n", 2)
        le(st, "snapshots_in_ram", 0)
        if "snapshots_on_disk" in params:
            ge(st, "snapshots_on_disk", 0)
        inv.append(("max_n>=2, snapshots_in_ram<=0", st))
    # ---- valid regions
    if cname == "MultistageCheckpointSchedule":
        for nm, cons in (("units in RAM", [("snapshots_in_ram", 1), ("snapshots_on_disk", 0)]),
                         ("units on DISK", [("snapshots_in_ram", 0), ("snapshots_on_disk", 1)])):
            st = base()
            for u, k in cons:
                ge(st, u, k)
            val.append((f"max_n>=1, {nm}", st))
        st = base()
        le(st, "max_n", 1)
        for u in units:
            ge(st, u, 0)
        val.append(("max_n==1, any units>=0", st))
    elif cname in FAMILY:
        st = base()
        ge(st, "snapshots_in_ram", 1)
        if "snapshots_on_disk" in params:
            ge(st, "snapshots_on_disk", 0)
        val.append(("max_n>=1, snapshots_in_ram>=1", st))
    elif cname == "MixedCheckpointSchedule":
        st = base()
        ge(st, "snapshots", 1)
        for tag, s2 in with_storage(st):
            val.append(("max_n>=1, snapshots>=1" + tag, s2))
        st = base()
        le(st, "max_n", 1)
        ge(st, "snapshots", 0)
        for tag, s2 in with_storage(st):
            val.append(("max_n==1, snapshots>=0" + tag, s2))
    elif cname == "TwoLevelCheckpointSchedule":
        st = base()
        ge(st, "binomial_snapshots", 0)
        for tag, s2 in with_storage(st):
            val.append(("period>=1, binomial_snapshots>=0" + tag, s2))
    else:
        val.append(("default construction", base()))
    return inv, val


def guard_prefix(fn):
    """leading `if ...: raise` statements of a function (its argument checks)"""
    out = []
    for s in fn.body:
        if isinstance(s, ast.Expr) and isinstance(s.value, ast.Constant):
            continue
        if isinstance(s, ast.If) and not s.orelse and len(s.body) == 1 and isinstance(s.body[0], ast.Raise):
            out.append(s)
        else:
            break
    g = ast.FunctionDef(name=fn.name + "_guards", args=fn.args, body=out or [ast.Pass()], decorator_list=[],
                        returns=None, type_comment=None)
    ast.copy_location(g, fn)
    ast.fix_missing_locations(g)
    return g


def run(chk, ctx):
    chk.describe("C17.REJECT", "every invalid parameter region ends in raise/assert before the constructor returns / before the first yield")
    chk.describe("C17.ACCEPT", "no valid parameter region reaches a raise of the constructor chain")
    chk.describe("C17.BORDER", "constant-index table stores are valid for every reachable table size")
    repo, model = ctx.repo, ctx.model
    for cname in model.concrete_classes():
        rel, c, f = repo.resolve_method(cname, "__init__")
        chk.files.add(rel)
        chk.functions.add(f"{rel[:-3]}.{c.name}.__init__")
        params = [a.arg for a in f.args.args[1:]] + [a.arg for a in f.args.kwonlyargs]
        inv, val = regions(cname, params)
        base = f"{rel[:-3]}.{cname}.__init__"
        for kind, regs in (("REJECT", inv), ("ACCEPT", val)):
            for name, st in regs:
                if st.bottom:
                    continue
                _, _, _, it = model.init_run(cname, entry=st, exact=(kind == "ACCEPT"))
                raises = [o for o in it.outcomes if o.kind == "raise" and not o.state.bottom]
                normal = [o for o in it.outcomes if o.kind in ("end", "return") and not o.state.bottom]
                cons = f"{base}#{kind.lower()}[{name}]"
                if kind == "REJECT":
                    ok = True if (raises and not normal) else (False if (normal and not raises) else None)
                    if ok is None and normal and raises:
                        ok = False   # some invalid tuples of the region construct successfully
                    chk.decide("C17.REJECT", cons, ok,
                               f"{cname}({name}): " + ("every path raises " + str(sorted({o.what for o in raises})) if ok else
                                                      "the constructor returns normally for (part of) this invalid region"),
                               rel=rel, node=f)
                else:
                    ok = True if (normal and not raises) else (False if (raises and not normal) else None)
                    if ok is None and raises and it.opaque_branches == 0:
                        # exact evaluation (straight-line code over linear terms, min/max as case splits):
                        # a feasible raising partition inside a valid region is a definite rejection of valid input
                        ok = False
                    chk.decide("C17.ACCEPT", cons, ok,
                               f"{cname}({name}): " + ("constructs without raising" if ok else
                                                      f"raises {sorted({o.what for o in raises})} at line(s) {sorted({o.node.lineno for o in raises})}"),
                               rel=rel, node=f)
    # ---- Multistage without units: no yield reachable (n_advance guard prefix inlined)
    cname = "MultistageCheckpointSchedule"
    rel_m, owner, fn = model.generator(cname)
    rel_a = "multistage.py"
    nadv = repo.func(rel_a, "n_advance")
    guards = guard_prefix(nadv)
    chk.functions.add(f"{rel_a[:-3]}.n_advance")

    def n_advance_hook(interp, node, st):
        interp.inline(guards, node, st)
        return interp.opaque(node, st)
    st = State()
    st.add_eq(N)
    st.add_eq(R)
    st.enum_meet("self._max_n", "notin", ["None"])
    st.add_ineq(M - Lin.const(2))
    from . import shared as _sh
    pa_ = _sh.param_attrs(ctx.repo, "MultistageCheckpointSchedule")
    RAM_S = pa_.get("snapshots_in_ram", "self._snapshots_in_ram")
    DISK_S = pa_.get("snapshots_on_disk", "self._snapshots_on_disk")
    st.add_ineq(-(Lin.sym(RAM_S) + Lin.sym(DISK_S)))
    st.add_ineq(Lin.sym(RAM_S))
    st.add_ineq(Lin.sym(DISK_S))
    it = Interp(fn, entry=st, hooks={"n_advance": n_advance_hook}, klass="MultistageCheckpointSchedule")
    it.run()
    cons = f"{rel_m[:-3]}.{owner.name}._iterator#no-unit"
    has_guard = any(isinstance(s, ast.If) for s in guards.body)
    if not has_guard:
        chk.decide("C17.REJECT", cons, None, "n_advance has no argument guards", rel=rel_a, node=nadv)
    else:
        chk.decide("C17.REJECT", cons, True if not it.yields else None,
                   "max_n>=2 with no checkpoint unit: " + ("no yield is reachable, the first n_advance call raises" if not it.yields
                   else f"{it.yields[0].yid} is emitted before any error is raised"),
                   rel=rel_m, node=fn)
    # and with a unit the same entry reaches a yield (the rule does not pass vacuously)
    st2 = State()
    st2.add_eq(N)
    st2.add_eq(R)
    st2.enum_meet("self._max_n", "notin", ["None"])
    st2.add_ineq(M - Lin.const(2))
    st2.add_ineq(Lin.sym(RAM_S) + Lin.sym(DISK_S) - ONE)
    it2 = Interp(fn, entry=st2, hooks={"n_advance": n_advance_hook}, klass="MultistageCheckpointSchedule")
    it2.run()
    chk.decide("C17.ACCEPT", cons + "/positive", True if it2.yields else False,
               "with at least one unit the first Forward is reachable", rel=rel_m, node=fn)
    # ---- BORDER
    border(chk, ctx)


def table_dims(fn):
    """name -> list of size expressions (ast) per dimension, for nested list-comprehension tables"""
    out = {}
    for s in ast.walk(fn):
        if isinstance(s, ast.Assign) and len(s.targets) == 1 and isinstance(s.targets[0], ast.Name):
            dims = []
            v = s.value
            while isinstance(v, ast.ListComp) and len(v.generators) == 1:
                g = v.generators[0]
                if isinstance(g.iter, ast.Call) and isinstance(g.iter.func, ast.Name) and g.iter.func.id == "range" \
                        and len(g.iter.args) == 1:
                    dims.append(g.iter.args[0])
                else:
                    dims.append(None)
                v = v.elt
            if isinstance(v, ast.BinOp) and isinstance(v.op, ast.Mult):
                dims.append(v.right if isinstance(v.left, ast.List) else v.left)
            if dims:
                # the outermost comprehension is the first index
                out[s.targets[0].id] = dims
    return out


def border(chk, ctx):
    repo = ctx.repo
    rel = "hrevolve_sequences/hrevolve.py"
    fn = repo.func(rel, "get_hopt_table")
    chk.files.add(rel)
    chk.functions.add(f"{rel[:-3]}.get_hopt_table")
    dims = table_dims(fn)
    from ..gram import lin_of
    # which cells of lmax are reachable from the constructors: hrevolve_recurse(l = max_n - 1 >= 0)
    rec = repo.func(rel, "hrevolve_recurse")
    reach0 = None
    params = [a.arg for a in rec.args.args]
    if "l" in params:
        st = State()
        st.add_eq(Lin.sym("l"))
        st.enum_set("hoptp", "None")
        st.enum_set("hopt", "None")
        it = Interp(rec, entry=st, finalize_havoc=False, record_calls=("get_hopt_table",))
        it.DEFAULT_PART = ()
        it.run()
        reach0 = [c for c in it.calls if c.name == "get_hopt_table"]
    size_param = fn.args.args[0].arg
    sites = 0
    for cell, cons_st in (("lmax==0", "eq0"), ("lmax>=1", "ge1")):
        st = State()
        L = Lin.sym(size_param)
        if cons_st == "eq0":
            st.add_eq(L)
        else:
            st.add_ineq(L - ONE)
        # at least one slot at the first level (snapshots_in_ram >= 1 is asserted by the constructors)
        it = Interp(fn, entry=st, finalize_havoc=False)
        it.DEFAULT_PART = ()
        it.record_subloads = True
        it.run()
        seen = set()
        # constant-index reads (`row = optp[k][1]`) fail in the same way as stores
        store_ids = {id(t) for t, _ in it.substores}
        accesses = [(t, s_, "store") for t, s_ in it.substores] + \
            [(t, s_, "load") for t, s_ in it.subloads if id(t) not in store_ids]
        for tgt, s, how in accesses:
            # tgt: X[a][b][c]
            idxs = []
            cur = tgt
            while isinstance(cur, ast.Subscript):
                idxs.append(cur.slice)
                cur = cur.value
            if not isinstance(cur, ast.Name) or cur.id not in dims:
                continue
            idxs = idxs[::-1]
            for d, (ix, size) in enumerate(zip(idxs, dims[cur.id])):
                if size is None or not (isinstance(ix, ast.Constant) and isinstance(ix.value, int)):
                    continue
                sz = lin_of(size)
                if sz is None or size_param not in sz.t:
                    continue
                key = (cur.id, d, ix.value, tgt.lineno)
                if key in seen:
                    continue
                if how == "load":
                    # only reads that are certainly out of range matter (a read that is in range proves nothing new)
                    if prove_ge(s, sz - Lin.const(ix.value + 1))[0] is not False:
                        continue
                seen.add(key)
                sites += 1
                need = sz - Lin.const(ix.value + 1)      # size - (k+1) >= 0
                res = prove_ge(s, need)
                cons = f"{rel[:-3].replace('/', '.')}.get_hopt_table#{how}-{cur.id}[dim{d}={ix.value}]@{cell}"
                if res[0] is False and cell == "lmax==0":
                    if reach0:
                        chk.decide("C17.BORDER", cons, False,
                                   f"{ast.unparse(tgt)} with {ast.unparse(size)} rows: row {ix.value} does not exist when "
                                   f"{size_param} == 0, and hrevolve_recurse(l=0) (max_n == 1) calls get_hopt_table before its "
                                   f"`l == 0` early return", rel=rel, node=tgt)
                    else:
                        chk.decide("C17.BORDER", cons, True if reach0 is not None else None,
                                   f"store would be out of range for {size_param} == 0 but no caller reaches the table builder with l == 0",
                                   rel=rel, node=tgt)
                else:
                    chk.decide("C17.BORDER", cons, res[0], f"{ast.unparse(tgt)}: index {ix.value} < {ast.unparse(size)}: {res[1]}",
                               rel=rel, node=tgt)
        if cell == "lmax==0" and not any(k for k in seen):
            chk.decide("C17.BORDER", f"{rel[:-3].replace('/', '.')}.get_hopt_table#lmax==0", True,
                       "no constant-index store into a lmax-sized dimension is reachable when lmax == 0", rel=rel, node=fn)
    chk.extra["border_store_sites"] = sites
