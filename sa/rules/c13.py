"""C13 - TwoLevel: periodic disk checkpoints, binomially optimal recomputation.

  FWD    the forward loop emits Forward(a, b, True, False, DISK) with a == n at entry,
         b - a == period, n == b: with n = 0 initially this is Forward(k*p, (k+1)*p, ...)
  SIB    the block-reversal loop and Multistage's reversal loop (the reference the suite
         pins to the binomial optimum) satisfy the same signature: pop exactly when the top
         is the step before the adjoint position, planner asked for max_n - r - n0 steps
         with units == capacity - depth (+1 after a Copy), same sequence of action roles
  LABEL  forward-sweep checkpoints are read from DISK, reversal-time ones from the
         binomial storage they were written to
"""
import ast

from .common import *
from . import shared
from .c01 import rule_label
from ..interp import truth

TWO, MULTI = "TwoLevelCheckpointSchedule", "MultistageCheckpointSchedule"


def roles(run_):
    """the set of action roles that occur after EndForward (the reversal), from the analysed states - where the
    yields sit syntactically (inline, in a nested generator, in a helper method) does not matter"""
    out = set()
    seen = False
    for rec in run_.interp.yields:
        st = rec.state
        if st.enum_single("$ef") != "1" or rec.kind in ("EndForward", "EndReverse"):
            continue
        seen = True
        if rec.kind in ("Copy", "Move"):
            popped = any(v == {"X"} for v in shared.trk_values(st).values())
            role = "LOAD-LAST" if popped else "LOAD-KEEP"
        elif rec.kind == "Forward":
            wi, wa = truth(st, rec.arg(2)), truth(st, rec.arg(3))
            if wi is None or wa is None:
                return None
            role = "WRITE" if wi else ("ADJSTEP" if wa else "ADVANCE")
        else:
            role = rec.kind.upper()
        out.add(role)
    return sorted(out) if seen else None


def run(chk, ctx):
    chk.describe("C13.FWD", "forward loop: Forward(n, n + period, True, False, DISK) and n advances by the period")
    chk.describe("C13.SIB", "block reversal has the signature of Multistage's reversal loop")
    runs = all_runs(chk, ctx)
    two = [r for r in runs if r.cname == TWO]
    ref = [r for r in runs if r.cname == MULTI]
    if not two or not ref:
        chk.error("TwoLevel or Multistage generator not found")
        return
    for run_ in two:
        fw = [rec for rec in run_.interp.yields if rec.kind == "Forward" and rec.state.enum_single("$ef") == "0"]
        if not fw:
            chk.decide("C13.FWD", run_.construct + "#forward-loop", None, "no Forward before EndForward", rel=run_.rel, node=run_.fn)
        for rec in fw:
            st, cons = rec.state, ycons(run_, rec)
            a, b = rec.arg(0), rec.arg(1)
            tri(chk, "C13.FWD", cons + "/start", prove_eq(st, a - NPREV), run_, rec, "start minus forward position")
            tri(chk, "C13.FWD", cons + "/period", prove_eq(st, b - a - Lin.sym("self._period")), run_, rec, "length minus period")
            tri(chk, "C13.FWD", cons + "/n", prove_eq(st, N - b), run_, rec, "n minus end")
            wi, wa, sto = truth(st, rec.arg(2)), truth(st, rec.arg(3)), rec.arg(4)
            ok = wi is True and wa is False and sto == DISK
            definite = wi is not None and wa is not None and isinstance(sto, Tok)
            chk.decide("C13.FWD", cons + "/kind", True if ok else (False if definite else None),
                       f"flags ({wi}, {wa}) storage {sto}: restart checkpoint to DISK required", rel=run_.rel, node=rec.node)
    # ---- SIB: the same rule set on both loops
    both = two + ref
    # representative runs for the syntactic comparisons: the run that reaches the most actions (with the
    # boundary cells of the thorough tier, degenerate cells reach no reversal at all)
    two = sorted(two, key=lambda r: -len(r.interp.yields))
    ref = sorted(ref, key=lambda r: -len(r.interp.yields))
    for run_ in both:
        it = run_.interp
        for rec in it.yields:
            st, cons = rec.state, ycons(run_, rec)
            if rec.kind in ("Copy", "Move") and rec.arg(2) == WORK and is_lin(rec.arg(0)):
                if not shared.trk_values(st) or it.untracked:
                    chk.decide("C13.SIB", cons + "/tracking", None, "the checkpoint stack is not a tracked local container",
                               rel=run_.rel, node=rec.node)
                    continue
                popped = [c for c, v in shared.trk_values(st).items() if v == {"X"}]
                x = rec.arg(0)
                if popped:
                    tri(chk, "C13.SIB", cons + "/pop-when-last", prove_eq(st, x - (M - R - ONE)), run_, rec,
                        "a checkpoint leaves the stack exactly when it is the step before the adjoint position: x - (max_n - r - 1)")
                else:
                    res = st.entails_eq(x - (M - R - ONE))
                    # only a checkpoint that sits on the stack can be "kept although it is the last step": a step that is
                    # no stack element (an implicit period checkpoint that is never deleted) is outside this rule
                    on_stack = any(st.entails_eq(x - Lin.sym(shared.top_syms(it, c))) == "yes" for c in sorted(it.containers))
                    if res == "yes" and not on_stack:
                        res = "not-on-stack"
                    ok = False if res == "yes" else (True if st.entails_neq(x - (M - R - ONE)) or
                                                     st.entails_ineq((M - R - ONE) - x - ONE) else None)
                    chk.decide("C13.SIB", cons + "/keep-when-not-last", ok,
                               "a checkpoint that is kept is strictly before the last step" if ok else
                               "cannot separate the kept checkpoint from the last step", rel=run_.rel, node=rec.node)
            if rec.kind == "Forward" and rec.state.enum_single("$ef") == "1" and truth(st, rec.arg(3)) is True \
                    and rec.arg(4) == WORK:
                tri(chk, "C13.SIB", cons + "/adjstep", prove_eq(st, rec.arg(1) - (M - R)), run_, rec,
                    "the adjoint-data step ends at the adjoint position")
    shared.rule_units(chk, "C13.SIB-UNITS", both, ctx.repo)
    shared.rule_adv(chk, "C13.SIB-ADV", both, names=("n_advance",))
    # corresponding planner calls of the two reversal loops are the same polynomials
    from ..poly import PolyBuilder, padd, patom, pkey, pstr

    def call_polys(run_):
        cap, attrs = shared.declared_capacity(ctx.repo, run_)
        seeds = shared.seeds_of(run_.interp)
        out = []
        ef_line = min((rec.node.lineno for rec in run_.interp.yields if rec.kind == "EndForward"), default=0)

        def atom(node, pb):
            if isinstance(node, ast.Attribute) and isinstance(node.value, ast.Name) and node.value.id == "self":
                return patom("self." + node.attr)
            if isinstance(node, ast.Call) and getattr(node.func, "id", None) == "len":
                return patom("DEPTH")
            if isinstance(node, ast.Name) and node.id == "n0":
                return patom("POS")
            return None
        calls = sorted((n for n in ast.walk(run_.fn) if isinstance(n, ast.Call) and getattr(n.func, "id", None) == "n_advance"
                        and n.lineno > ef_line), key=lambda n: n.lineno)
        units_defs = {}
        for n in ast.walk(run_.fn):
            if isinstance(n, ast.Assign) and isinstance(n.targets[0], ast.Name) and n.targets[0].id == "n_snapshots":
                units_defs[n.lineno] = n.value
        for c in calls:
            pb = PolyBuilder(atom)
            steps = pb.poly(c.args[0])
            u = c.args[1]
            if isinstance(u, ast.Name) and u.id == "n_snapshots":
                ln = max((l for l in units_defs if l < c.lineno), default=None)
                u = units_defs.get(ln, u)
            units = pb.poly(u)
            capp = {}
            for a in attrs:
                capp = padd(capp, patom(a))
            for c_, k in seeds.items():
                capp = padd(capp, {(): k})
            out.append((c, pkey(steps), pkey(padd(units, capp, -1))))
        return out
    cp2, cp1 = call_polys(two[0]), call_polys(ref[0])
    # a textual cross-reading of the two loops (the deciding rules are SIB-UNITS and SIB-ADV, which hold each call
    # against max_n - r - n0 and capacity - depth in the analysed state); a mismatch here is reported as a note,
    # because the same calls can be written in many equivalent ways (locals, helpers, nested generators)
    if len(cp1) != len(cp2) or not cp1:
        chk.note(f"C13.SIB/planner-calls: {len(cp2)} planner call sites in the block reversal, {len(cp1)} in the Multistage "
                 "reversal (not compared textually; see SIB-UNITS / SIB-ADV)")
    else:
        for k, ((c2, s2, u2), (c1, s1, u1)) in enumerate(zip(cp2, cp1)):
            same = s2 == s1 and u2 == u1
            if same:
                chk.decide("C13.SIB", f"{two[0].construct}#planner-call[{k}]", True,
                           f"steps {pstr(dict(s2))} / units-capacity {pstr(dict(u2))}: the same expressions as in Multistage",
                           rel=two[0].rel, node=c2, nontrivial=False)
            else:
                chk.note(f"C13.SIB/planner-call[{k}]: written differently from Multistage (steps {pstr(dict(s2))} / units-capacity "
                         f"{pstr(dict(u2))} vs. {pstr(dict(s1))} / {pstr(dict(u1))}); decided by SIB-UNITS / SIB-ADV")
    shared.rule_config(chk, "C13.CONFIG", ctx, classes=[TWO, MULTI])
    r2, r1 = roles(two[0]), roles(ref[0])
    cons = f"{two[0].construct}#roles"
    tracked = not (two[0].interp.untracked or ref[0].interp.untracked) and two[0].interp.containers and ref[0].interp.containers
    if getattr(two[0].interp, "fuzzy", None) or getattr(ref[0].interp, "fuzzy", None):
        tracked = False     # a run that met constructs it cannot follow has no definite set of roles
    chk.decide("C13.SIB", cons, None if (r1 is None or r2 is None or not tracked) else (True if r1 == r2 else False),
               f"action roles of the block reversal {r2} vs. Multistage reversal {r1}", rel=two[0].rel, node=two[0].fn)
    rule_label(chk, "C13.LABEL", two)
    chk.note("not decided: optimality itself (C05); the clause decided is that TwoLevel's untested block-reversal path "
             "mirrors the Multistage loop the suite pins to the binomial optimum")
